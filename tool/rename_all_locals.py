#!/usr/bin/env python3
"""rename_all_locals.py <dir>: in a scratch copy of the sources (<dir>/src, <dir>/include) rename every local variable and parameter
whose name is unambiguous in its file (not also a member, function, type or macro name, never used after . -> ::) to <name>_rn.
A behaviour-preserving variant that tests that no rule depends on what a local is called."""
import os, re, sys
sys.path.insert(0, os.path.dirname(os.path.dirname(os.path.abspath(__file__))))
D = os.path.abspath(sys.argv[1])
os.environ["PV_REPO"] = D
from pv import facts
prog = facts.load("quick")
EXCL = set(open(sys.argv[2]).read().split()) if len(sys.argv) > 2 and os.path.isfile(sys.argv[2]) else set()
member_names = set()
for c in prog.class_list:
    for f in c.get("fields", []):
        member_names.add(f["name"])
    for m in c.get("methods", []):
        member_names.add((m.get("name") or "").rsplit("::", 1)[-1])
func_names = {f.name.rsplit("::", 1)[-1] for f in prog.funcs.values()}
global_names = {v["name"].rsplit("::", 1)[-1] for v in prog.vars}
KEYWORDS = set("""alignas alignof and asm auto bool break case catch char class const constexpr const_cast continue decltype default delete do
double dynamic_cast else enum explicit export extern false float for friend goto if inline int long mutable namespace new noexcept not nullptr
operator or private protected public register reinterpret_cast return short signed sizeof static static_assert static_cast struct switch template
this thread_local throw true try typedef typeid typename union unsigned using virtual void volatile wchar_t while xor override final size_t
ssize_t std string data size first second begin end value type name result errno""".split())
per_file = {}
for f in prog.funcs.values():
    if not (f.file.startswith(D + "/src/") or f.file.startswith(D + "/include/")):
        continue
    names = {p["name"] for p in f.params if p.get("name")} | {d["var"] for d in f.events("decl") if d.get("var")}
    per_file.setdefault(f.file, set()).update(n for n in names if n and not n.startswith("__"))
total = 0
for path, names in sorted(per_file.items()):
    try:
        src = open(path).read()
    except OSError:
        continue
    ok = []
    for n in sorted(names):
        if len(n) < 2 or n in EXCL or n in KEYWORDS or n in member_names or n in func_names or n in global_names:
            continue
        if re.search(r"(\.|->|::)\s*%s\b" % re.escape(n), src):
            continue        # also used as a member / qualified name somewhere in the file
        if re.search(r"#\s*define[^\n]*\b%s\b" % re.escape(n), src):
            continue
        if re.search(r"\b%s\s*::" % re.escape(n), src):
            continue
        ok.append(n)
    for n in ok:
        src = re.sub(r"(?<![\w\"])%s(?![\w\"])" % re.escape(n), n + "_rn", src)
    # string literals and #include lines must stay as they were: undo inside them
    def undo(m):
        return re.sub(r"(\w+)_rn\b", r"\1", m.group(0))
    src = re.sub(r'"(?:[^"\\\n]|\\.)*"', undo, src)
    src = re.sub(r"^\s*#\s*include[^\n]*$", undo, src, flags=re.M)
    open(path, "w").write(src)
    total += len(ok)
    print("%-50s %d locals renamed" % (path.replace(D + "/", ""), len(ok)))
print("total", total)
