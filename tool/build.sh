#!/bin/sh
# Build the fact extractor (offline; links libclang-cpp / libLLVM 14 by path).
set -e
cd "$(dirname "$0")/.."
mkdir -p build
if [ ! -x build/pvfacts ] || [ tool/pvfacts.cc -nt build/pvfacts ]; then
  clang++ $(llvm-config-14 --cxxflags) -fno-rtti -O1 tool/pvfacts.cc -o build/pvfacts \
    /usr/lib/llvm-14/lib/libclang-cpp.so.14 /usr/lib/llvm-14/lib/libLLVM-14.so
fi
echo "pvfacts built: $(ls -la build/pvfacts | awk '{print $5}') bytes"
# pvmutate: behaviour-preserving source rewriter used only by tool/refactor_test.sh (variant 00c); no check depends on it
if [ ! -x build/pvmutate ] || [ tool/pvmutate.cc -nt build/pvmutate ]; then
  clang++ $(llvm-config-14 --cxxflags) -fno-rtti -O1 tool/pvmutate.cc -o build/pvmutate /usr/lib/llvm-14/lib/libclang-cpp.so.14 /usr/lib/llvm-14/lib/libLLVM-14.so 2>/dev/null || echo "pvmutate not built (optional)"
fi
