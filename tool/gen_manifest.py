#!/usr/bin/env python3
"""Regenerates /verif/MANIFEST.json from the table below (one entry per property)."""
import json
import os

HERE = os.path.dirname(os.path.dirname(os.path.abspath(__file__)))

# id -> (claimed?, technique, level text, level note, design ref)   or   (False, reason)
CLAIMS = {}


def claim(pid, technique, text, note, ref):
    CLAIMS[pid] = (True, technique, text, note, ref)


def na(pid, reason):
    CLAIMS[pid] = (False, reason)


TRUST = ("Trusted: clang 14 front end / CFG builder, the fact extractor (tool/pvfacts.cc), the per-rule idiom tables in pv/rules; "
         "no exception edges; templates are analysed through the instantiations in the library units and /verif/inst.")

claim("C07", "path automaton with bool-flag constant propagation over clang CFG; must-pass-through; call-graph reachability",
      "Static rule set on every CFG path: the would-block arm of the drain routine leaves the loop without another socket write, arms "
      "write interest and re-queues the tail at the FIFO head; the writable event resumes draining; arming reaches epoll_ctl. "
      "Holds for all schedules/would-block placements because it is a statement-order fact. Timing is not decided.",
      TRUST, "DESIGN.md §3 C07")

claim("C13", "statement-order / path automaton over clang CFG; atomic type and memory-order check; who-may-call",
      "Premises of the queue algorithm on all paths of every instantiation: producer links then signals (atomic exchange, release store), "
      "consumer drains the eventfd before looking at the queue, consumers loop until the null result, one consumer per queue, tail written "
      "only by pop. These are the exact ordering facts the lost-wake-up / lost-item arguments rest on; they hold for every interleaving "
      "because they are program-order facts. The interleaving argument itself is the design's, not the tool's.",
      TRUST, "DESIGN.md §3 C13")
claim("C11", "dominance + who-may-call + path automaton + lockset + type-level value-category check",
      "At-most-once guards of continuations, then() runs-or-remembers, no fulfilment on a rejection path, combinator guards cross-checked "
      "between All/Any/WhenAllRange, all-of completeness, and stored values handed out as rvalues only to rvalue-reference continuations. "
      "Decided for every instantiation in the library and the drivers; equality of delivered values is not decided.",
      TRUST, "DESIGN.md §3 C11")
claim("C12", "lockset (guarded-access) analysis over clang CFG with verified lock-held preconditions",
      "Every access to a promise core's continuation list / exception, every state store, construct() and continuation walk is under the "
      "mutex of that same core; then() and settlement each use one guard scope. This proves the serialisation premise for all schedules; "
      "exactly-once then follows from the C11 once-guards.",
      TRUST, "DESIGN.md §3 C12")
claim("C06", "who-may-call/write + lockset with synchronous-lambda context + per-iteration path automaton",
      "Single FIFO path to the socket, lock discipline on the pending-write table including references derived from it, deferred consumed "
      "exactly once per drain iteration, resolve only after the last byte with the full count, re-queue carries the unwritten tail at the "
      "recorded offset. Does not decide the byte stream for every short-write pattern.",
      TRUST, "DESIGN.md §3 C06")
claim("C04", "must-pass-through over CFG regions + mod-set inclusion over the call graph",
      "Every completion path of the server handler and of the client connection resets the parser; every parser-owned field that parsing may "
      "write (through every Step::apply override) is re-initialised by the reset that virtual dispatch selects. Full for the reset "
      "discipline; what the re-initialised value is, is not decided.",
      TRUST, "DESIGN.md §3 C04")

claim("C08", "who-may-call + exactly-once path counting + must-pass-through over clang CFG",
      "Release paths: removePeer only from the disconnection routine, peer descriptors closed only there, notify-before-release, each release "
      "effect exactly once, no input after disconnect, registration exactly once, edge-triggered read loop drains until would-block, "
      "response-timer ownership (settle or close). Descriptor counts are a runtime observation and are not decided.",
      TRUST, "DESIGN.md §3 C08")
claim("C09", "effect analysis over the whole-program call graph + ordering facts",
      "Nothing reachable from the shared router handler's per-request entry points mutates Router/SegmentTreeNode state (frozen STL mutator "
      "table); shutdown ordering facts; foreign threads reach worker-owned tables only through the queues. Not a full race analysis.",
      TRUST, "DESIGN.md §3 C09")
claim("C10", "dominance ordering + path automata over clang CFG",
      "Search order fixed>param>optional>splat with immediate return on a match, bindings undone on backtracking, exactly one terminal action "
      "per path of Router::route, 405 only with an Allow list built from other matching methods, sanitisation before every tree access. "
      "The match result for every table x path is not decided.",
      TRUST, "DESIGN.md §3 C10")
claim("C15", "type-level CAS check + who-may-call + typestate path automaton",
      "Single-outstanding-request protocol of a pooled connection: atomic Idle->Used claim, performImpl only on a claimed connection, settle "
      "exactly once then release then hand back in all three completion routines, clean parser on hand-back (known finding: time-out path), "
      "persistent timer registration. Response<->request matching over server behaviours is not decided.",
      TRUST, "DESIGN.md §3 C15")

claim("C01", "path automata over clang CFG + idempotence classification of reachable writes",
      "Integrity of the segmentation mechanisms on every path: revert-guard discipline of each step, idempotent re-parse (only assignments "
      "and keyed inserts on message state), incremental body counters, no message write / Next after possible input exhaustion, errors "
      "independent of the cut, re-base after buffer growth. Equality of the parsed message over all cuts is value-level and not decided.",
      TRUST, "DESIGN.md §3 C01")
claim("C03", "bounded-buffer taint + dominance + region checks over clang CFG",
      "No NUL-scanning libc/std entry point on the bounded receive buffer, bounded look-ahead, limit check before growth, no reservation "
      "sized by the peer, catch-all with std::exception, scan loops test for end of input, no unchecked signed->unsigned counts. "
      "Termination time and arithmetic UB inside conversions are not decided.",
      TRUST, "DESIGN.md §3 C03")
claim("C05", "ordering/dominance + dataflow identity + sibling agreement over clang CFG",
      "Component order and failure discipline of the fixed-length serialisers, Content-Length operand == body operand, chunk framing shape "
      "incl. numeric base restored, sibling agreement putOnWire/serveFile, growth cap. Byte-exact grammar for all sizes is not decided.",
      TRUST, "DESIGN.md §3 C05")
claim("C14", "guard-dominates-sink + option propagation (sibling agreement) + hierarchy exhaustiveness",
      "Cumulative limit check (on bytes.size()) dominates growth, 413 path, options reach every worker's transport and handler, idle scan "
      "covers every parser phase and both time-outs from the request start, periodic timer drives it. Exactness at limit±1 and "
      "wall-clock bounds are not decided.",
      TRUST, "DESIGN.md §3 C14")
claim("C16", "type-level container discipline + writer/reader table agreement + hierarchy exhaustiveness",
      "Case-insensitive containers/comparators, keep-first insertion and intact raw value, token tables of Connection/Encoding/"
      "Cache-Control/Expect agree, every named header type is registered, quality value rounded. Round trip over all representable "
      "values is not decided.",
      TRUST, "DESIGN.md §3 C16")
claim("C17", "writer/reader table agreement + bounded-buffer taint + keyed-insert check",
      "Cookie attribute names and their members agree between write and fromRaw, bounded reads, keyed keep-first jar insertion and jar "
      "clearing before re-parse. Equality of parsed cookies, iteration and rejection of all malformed text are not decided.",
      TRUST, "DESIGN.md §3 C17")
claim("C18", "bounded-buffer taint + table agreement + failure-arm check + folding/rounding shape",
      "No read past the given length in the media-type parser and its matchers, matched literals == printed literals, every syntactic "
      "failure raises 415, tolower folding, rounded quality. Parameter/quality round trip is not decided.",
      TRUST, "DESIGN.md §3 C18")
claim("C19", "range-check-dominates-narrowing + path facts + who-may-call",
      "Port narrowing only past a bail-out testing end pointer, min and max; empty port rejected; default port constant; only ':port' after a "
      "bracketed literal; conversions only via inet_pton/inet_ntop with rejection. Correctness for every literal form is not decided.",
      TRUST, "DESIGN.md §3 C19")

for pid in ["C01", "C03", "C04", "C05", "C06", "C08", "C09", "C10", "C11", "C12", "C13", "C14", "C15", "C16", "C17", "C18", "C19"]:
    if pid not in CLAIMS:
        na(pid, "static rule set designed in DESIGN.md §3 but its check is not wired in yet (under construction in this session)")

claim("C02", "writer/reader table agreement + separator and framing-header agreement over resolved AST/CFG",
      "Partial: the two sides' token tables (methods, versions), status-code radix, header-line separators, cookie join/split separators, "
      "framing header types and chunk-size radix agree between the serialisers and the shared parser — necessary conditions of the round "
      "trip that are visible in code shape. Equality of whole messages over the value space of the builder/writer API is value-level and "
      "is not decided (it needs execution or a solver: another family).",
      TRUST, "DESIGN.md §3 C02 (revised in §6)")
_unused = ("C02", "value-space equality of serialised vs. parsed messages over the whole builder API: no structural clause that is both necessary and "
          "not already claimed under C05/C16/C17/C18; deciding it needs execution or a solver (different family)")
claim("C20", "interval abstract interpretation of the two alphabet functions (table agreement on intervals) + bit-provenance dataflow over "
      "the expression trees of every store + token agreement / guard dominance for the Basic credential accessors",
      "Partial: (1) EncodeByte is the RFC 4648 alphabet table on 0..63 and DecodeCharacter its inverse, with every other character "
      "(the padding included) a non-sextet and the sextet threshold separating the two; (2) every bit of every sextet written by Encode() "
      "and of every octet written by Decode() comes from the input bit RFC 4648 prescribes, in full groups and both tail cases, each "
      "group position written once, padding '=' elsewhere, strides 3/4; (3) the left-over-sextet size table; (4) scheme prefix and "
      "delimiter tokens agree between setBasicUserPassword, hasMethod<Basic>, getBasicUser and getBasicPassword, the getters split at the "
      "first delimiter and the setter refuses a user containing it. Decided for all byte values because the bit-provenance domain is exact "
      "for shifts, masks and ors by constants. NOT decided: the length arithmetic (CalculateEncodedSize, loop bounds: that every group is "
      "visited) and the rejection of every invalid text -- value-level.",
      TRUST, "DESIGN.md §3 C20 (revised)")


def main():
    checks = []
    nas = []
    for pid in sorted(CLAIMS):
        c = CLAIMS[pid]
        if c[0]:
            checks.append({
                "property_id": pid,
                "quick_cmd": "./check %s --tier quick" % pid,
                "thorough_cmd": "./check %s --tier thorough" % pid,
                "evidence_file": "evidence/%s.json" % pid,
                "replay_cmd_template": "./check --replay {path}",
                "engine": "pvcheck",
                "level_claimed": {"category": "other", "text": c[2], "design_ref": c[4]},
                "level_note": c[3],
                "technique": "static analysis: " + c[1],
            })
        else:
            nas.append({"property_id": pid, "reason": c[1]})
    m = {
        "version": 1,
        "setup_cmd": "./tool/build.sh",
        "hooks": {
            "guard": "PISTACHE_VERIF",
            "enable": "none needed: the checks parse /repo's sources and never execute them; no hook commits exist",
            "baseline_off_cmd": "cmake --build /repo/_build -j16 && ctest --test-dir /repo/_build -j8 --timeout 900",
            "source_commits": [],
            "add_only": True,
        },
        "engines": [{
            "name": "pvcheck",
            "path": "check",
            "serves_properties": [c["property_id"] for c in checks],
            "kind_free_text": "libTooling fact extractor (tool/pvfacts.cc: resolved AST, clang::CFG with all sub-expressions, class hierarchy, "
                              "call graph) + Python rule engine (pv/): path automata, dominance, lockset, who-may-call, mod-set inclusion, "
                              "effect, bounded-buffer taint, table agreement, type-level container discipline",
        }],
        "checks": checks,
        "not_applicable": nas,
        "notes": "Exit 0 = all obligations discharged; 1 = VIOLATION lines; 2 = analysis broken (anchor vanished / instance count below the "
                 "confirmed minimum). Known findings: known_findings.json. Genuine defects repaired in /repo by 'fix:' commits are listed "
                 "there as status=fixed and suppress nothing.",
    }
    with open(os.path.join(HERE, "MANIFEST.json"), "w") as fh:
        json.dump(m, fh, indent=1)
        fh.write("\n")
    print("MANIFEST.json: %d checks, %d not_applicable" % (len(checks), len(nas)))


if __name__ == "__main__":
    main()
