#!/usr/bin/env python3
"""make_reference.py: record which named functions (and which local lambda variables per function) exist in the library on the tree the
rules were confirmed on.  A function that is *not* in this snapshot is a helper introduced later: when a rule looks at an anchored function,
calls to such helpers are expanded in place (pv/facts.py: Program.flat), so that moving code into a private helper does not hide it."""
import json, os, re, subprocess, sys
HERE = os.path.dirname(os.path.dirname(os.path.abspath(__file__)))
sys.path.insert(0, HERE)
from pv import facts
prog = facts.load("quick")
fn = sorted({f.base for f in prog.library_funcs() if not f.is_lambda})
lam = {}
for f in prog.library_funcs():
    if f.is_lambda:
        continue
    vs = sorted({d["var"] for d in f.events("decl") if d.get("var") and "(lambda at " in (d.get("type") or "")})
    algos = sorted({"<%s>" % (e.get("callee") or "").split("<")[0] for e in f.events("call")
                    if (e.get("callee") or "").split("<")[0] in facts.Program.STD_LAMBDA_LOOPS and any(a.get("lam") for a in e.get("args", []))})
    vs = sorted(set(vs) | set(algos))
    if vs:
        lam.setdefault(f.base, [])
        lam[f.base] = sorted(set(lam[f.base]) | set(vs))
head = subprocess.run(["git", "-C", facts.REPO, "rev-parse", "--short", "HEAD"], stdout=subprocess.PIPE, universal_newlines=True).stdout.strip()
json.dump({"repo_commit": head, "functions": fn, "lambda_vars": lam}, open(os.path.join(HERE, "reference", "functions.json"), "w"), indent=0, sort_keys=True)
print(len(fn), "functions,", sum(len(v) for v in lam.values()), "named local lambdas at", head)
