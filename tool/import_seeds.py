#!/usr/bin/env python3
"""import_seeds.py <outdir> [round-label]: copy seed directories written by sub-agents (<outdir>/<Cxx>_<tag>/ with patch.diff, demo.cc,
run_demo.sh, NOTES.md whose first two lines are `BREAKS: ...` / `NEEDS: ...`) into /verif/seeded/ and create their meta.json.
Confirmation (tool/verify_seed.sh) and detection (tool/seed_eval.py) are separate steps."""
import json, os, re, shutil, sys
out = sys.argv[1]
label = sys.argv[2] if len(sys.argv) > 2 else "round 3"
dst = os.path.join(os.path.dirname(os.path.dirname(os.path.abspath(__file__))), "seeded")
n = 0
for d in sorted(os.listdir(out)):
    src = os.path.join(out, d)
    m = re.match(r"^(C\d\d)_(\w+)$", d)
    if not m or not os.path.isfile(os.path.join(src, "patch.diff")):
        continue
    notes = open(os.path.join(src, "NOTES.md")).read() if os.path.isfile(os.path.join(src, "NOTES.md")) else ""
    br = re.search(r"^BREAKS:\s*(.+)$", notes, re.M)
    nd = re.search(r"^NEEDS:\s*(.+)$", notes, re.M)
    t = os.path.join(dst, d)
    os.makedirs(t, exist_ok=True)
    for fn in os.listdir(src):
        if fn in ("demo", ) or fn.endswith(".o"):
            continue
        p = os.path.join(src, fn)
        if os.path.isfile(p):
            shutil.copy2(p, os.path.join(t, fn))
    if os.path.isfile(os.path.join(t, "run_demo.sh")):
        os.chmod(os.path.join(t, "run_demo.sh"), 0o755)
    meta_p = os.path.join(t, "meta.json")
    meta = json.load(open(meta_p)) if os.path.isfile(meta_p) else {}
    meta.update({
        "property": m.group(1),
        "breaks": (br.group(1).strip() if br else meta.get("breaks", "?")),
        "needs_to_manifest": (nd.group(1).strip() if nd else meta.get("needs_to_manifest", "?")),
        "origin": "written by a fresh sub-agent (%s: it saw only the property text, a scratch worktree of /repo and the one-line list of "
                  "mechanisms already used in earlier rounds); demonstration = demo.cc (+ run_demo.sh <worktree>); the sub-agent's own "
                  "report is NOTES.md" % label,
    })
    json.dump(meta, open(meta_p, "w"), indent=1, sort_keys=True)
    n += 1
    print("imported", d)
print(n, "seeds imported")
