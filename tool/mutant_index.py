#!/usr/bin/env python3
"""Rebuild selftest/mutants/index.json: for every stored mutant patch (reverted 'fix:' commits of /repo), apply it to a scratch copy of
the current sources, run every claimed check against the copy and record which (property, rules) report it.  The thorough tier of
./check then requires these detections to persist (pv/selftest.py)."""
import glob, json, os, subprocess, sys, shutil
HERE = os.path.dirname(os.path.dirname(os.path.abspath(__file__)))
sys.path.insert(0, HERE)
from pv import selftest
claimed = [c["property_id"] for c in json.load(open(os.path.join(HERE, "MANIFEST.json")))["checks"]]
idx = {}
for p in sorted(glob.glob(os.path.join(HERE, "selftest", "mutants", "*.patch"))):
    d = selftest._scratch_copy()
    try:
        r = subprocess.run(["patch", "-p1", "-s", "-f", "-d", d, "-i", p], stdout=subprocess.PIPE, stderr=subprocess.STDOUT, text=True)
        if r.returncode != 0:
            print("skip", os.path.basename(p)); continue
        det = {}
        for prop in claimed:
            c = subprocess.run([sys.executable, os.path.join(HERE, "check"), prop, "--repo", d, "--tier", "quick", "--no-evidence"], stdout=subprocess.PIPE, stderr=subprocess.STDOUT, text=True)
            rules = sorted({ln.split()[1] for ln in c.stdout.splitlines() if ln.strip().startswith("rule ")})
            if c.returncode == 1 and rules:
                det[prop] = rules
            elif c.returncode == 2:
                det[prop] = ["BROKEN"]
        idx[os.path.basename(p)] = det
        print(os.path.basename(p)[:60], det)
    finally:
        shutil.rmtree(d, ignore_errors=True)
json.dump(idx, open(os.path.join(HERE, "selftest", "mutants", "index.json"), "w"), indent=1, sort_keys=True)
