// Instantiation driver for the templates of include/pistache/http.h (chunked stream insertion, response time-out).
#include <chrono>
#include <pistache/http.h>

using namespace Pistache;

namespace pv_inst
{
    void stream_ops(Http::ResponseStream& s, const char* p, int n, char c)
    {
        s << "literal";
        s << p;
        s << n;
        s << c;
        s << Http::flush;
        s << Http::ends;
    }

    // ResponseWriter::timeoutAfter<Duration> -> Timeout::arm<Duration> (the continuation that fires the time-out)
    void response_timeout(Http::ResponseWriter& w)
    {
        w.timeoutAfter(std::chrono::milliseconds(10));
    }
} // namespace pv_inst
