// Instantiation driver for the templates of include/pistache/http.h (chunked stream insertion).
#include <pistache/http.h>

using namespace Pistache;

namespace pv_inst
{
    void stream_ops(Http::ResponseStream& s, const char* p, int n, char c)
    {
        s << "literal";
        s << p;
        s << n;
        s << c;
        s << Http::flush;
        s << Http::ends;
    }
} // namespace pv_inst
