// Instantiation driver: forces clang to instantiate every template body of include/pistache/async.h
// that the checks reason about.  Never compiled to an object, never run: only parsed by pvfacts.
// Findings are reported at the template's source location in /repo.
#include <pistache/async.h>

#include <exception>
#include <string>
#include <vector>

using namespace Pistache;

namespace pv_inst
{
    // value-returning, void-returning and promise-returning continuations on Promise<int>
    void chain_int(Async::Promise<int>& p)
    {
        auto a = p.then([](int v) { return v + 1; }, Async::NoExcept);                 // Res(Args)
        auto b = p.then([](int) {}, Async::IgnoreException);                           // void(Args)
        auto c = p.then([](int v) { return Async::Promise<std::string>::resolved(std::to_string(v)); },
                        Async::Throw);                                                 // Promise<U>(Args)
        auto d = a.then([](int v) { return v * 2; }, [](std::exception_ptr) {});      // custom rejection
        auto e = c.then([](const std::string& s) { return s.size(); }, Async::Throw); // derived of derived
        (void)b;
        (void)d;
        (void)e;
    }

    // the same on Promise<void>
    void chain_void(Async::Promise<void>& p)
    {
        auto a = p.then([]() { return 1; }, Async::NoExcept);
        auto b = p.then([]() {}, Async::IgnoreException);
        auto c = p.then([]() { return Async::Promise<int>::resolved(3); }, Async::Throw);
        auto d = a.then([](int v) { return v; }, Async::Throw);
        (void)b;
        (void)c;
        (void)d;
    }

    void settle()
    {
        Async::Promise<int> p1([](Async::Deferred<int> d) { d.resolve(1); });
        Async::Promise<int> p2([](Async::Resolver& r, Async::Rejection& j) { r(2); j(std::runtime_error("x")); });
        Async::Promise<void> p3([](Async::Deferred<void> d) { d.resolve(); d.reject(std::runtime_error("y")); });
        Async::Promise<std::string> p4([](Async::Deferred<std::string> d) { d.reject(std::runtime_error("z")); });
        auto r1 = Async::Promise<int>::resolved(5);
        auto r2 = Async::Promise<void>::resolved();
        auto r3 = Async::Promise<int>::rejected(std::runtime_error("r"));
        chain_int(p1);
        chain_int(p2);
        chain_void(p3);
        // a continuation that takes the value by rvalue reference is the only kind allowed to receive the moved value
        auto m = p4.then([](std::string&& s) { return s.size(); }, Async::NoExcept);
        auto n = p4.then([](std::string s) { return Async::Promise<int>::resolved(static_cast<int>(s.size())); }, Async::NoExcept);
        (void)m;
        (void)n;
        (void)r1;
        (void)r2;
        (void)r3;
    }

    void combinators(Async::Promise<int>& a, Async::Promise<std::string>& b, Async::Promise<void>& v)
    {
        auto all  = Async::whenAll(a, b);
        auto any  = Async::whenAny(a, b);
        // whenAny/whenAll over a Promise<void> input do not compile (std::tuple<int, void>): resolveVoid is uninstantiable
        (void)v;
        all.then([](const std::tuple<int, std::string>&) {}, Async::NoExcept);
        any.then([](const Async::Any& x) { return x.is<int>(); }, Async::NoExcept);

        std::vector<Async::Promise<int>> vi;
        auto ri = Async::whenAll(vi.begin(), vi.end());
        ri.then([](const std::vector<int>&) {}, Async::NoExcept);

        std::vector<Async::Promise<void>> vv;
        auto rv = Async::whenAll(vv.begin(), vv.end());
        rv.then([]() {}, Async::NoExcept);
    }

    void barrier(Async::Promise<int>& p)
    {
        Async::Barrier<int> b(p);
        b.wait();
        b.wait_for(std::chrono::seconds(1));
    }
} // namespace pv_inst
