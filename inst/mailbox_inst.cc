// Instantiation driver for include/pistache/mailbox.h and the header-only stream buffers.
#include <pistache/mailbox.h>
#include <pistache/os.h>
#include <pistache/stream.h>

#include <string>

using namespace Pistache;

namespace pv_inst
{
    struct Item
    {
        int a;
        std::string s;
    };

    void queues(Polling::Epoll& poller)
    {
        Queue<Item> q;
        q.push(Item { 1, "x" });
        Item it { 2, "y" };
        q.push(it);
        auto* e = q.pop();
        (void)e;
        auto p = q.popSafe();
        (void)q.empty();

        PollableQueue<Item> pq;
        pq.bind(poller);
        pq.push(Item { 3, "z" });
        pq.push(it);
        auto p2 = pq.popSafe();
        auto* e2 = pq.pop();
        (void)e2;
        (void)pq.tag();
        pq.unbind(poller);

        MPMCQueue<int, 4> m;
        m.enqueue(1);
        int out;
        m.dequeue(out);
    }

    void streams()
    {
        ArrayStreamBuf<char> a(128);
        a.feed("abc", 3);
        a.reset();
        StreamCursor c(&a);
        (void)c.next();
        (void)c.eol();
        char raw[4] = { 'a', 'b', 'c', 'd' };
        RawStreamBuf<> r(raw, sizeof raw);
        (void)r.snext();
    }
} // namespace pv_inst
